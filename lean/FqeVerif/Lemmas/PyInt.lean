/-
  Lemmas/PyInt.lean — the Python helpers as translated by harness/translate/pyint.py (Generated/PyInt.lean, over
  `Int` with two's-complement bit operations) equal the hand-written Model (Model/Bits.lean, Model/Sectors.lean) on
  all inputs.
-/
import FqeVerif.Generated.PyInt
import FqeVerif.Model.Sectors
import FqeVerif.Lemmas.Bits
import FqeVerif.Model.Maps
import FqeVerif.Lemmas.Binom
import Mathlib.Data.List.Induction
namespace GenPy
open PyPrelude Model

theorem land_cast (a b : Nat) : Int.land (a : Int) (b : Int) = ((a &&& b : Nat) : Int) := rfl
theorem lor_cast (a b : Nat) : Int.lor (a : Int) (b : Int) = ((a ||| b : Nat) : Int) := rfl
theorem xor_cast (a b : Nat) : Int.xor (a : Int) (b : Int) = ((a ^^^ b : Nat) : Int) := rfl
theorem land_lnot_cast (a b : Nat) : Int.land (a : Int) (Int.lnot (b : Int)) = ((Nat.ldiff a b : Nat) : Int) := rfl

theorem ldiff_eq_andNot (a b : Nat) : Nat.ldiff a b = andNot a b := by
  apply Nat.eq_of_testBit_eq
  intro i
  rw [Nat.testBit_ldiff, testBit_andNot]

theorem shl_one_cast (p : Nat) : ((1 : Int) <<< (p : Int)) = ((1 <<< p : Nat) : Int) := by
  have := Int.shiftLeft_natCast 1 p
  simpa using this

theorem shl_one_sub_cast (p : Nat) : ((1 : Int) <<< (p : Int)) - (1 : Int) = (((1 <<< p) - 1 : Nat) : Int) := by
  rw [shl_one_cast]
  have : 1 ≤ 1 <<< p := by rw [Nat.one_shiftLeft]; exact Nat.one_le_two_pow
  omega

theorem py_count_bits (s : Nat) : count_bits (s : Int) = (countBits s : Nat) := by
  simp [count_bits, pyBinCountOnes]

theorem py_get_bit (s p : Nat) : get_bit (s : Int) (p : Int) = (getBit s p : Nat) := by
  simp only [get_bit, pyAnd, pyShl, shl_one_cast, land_cast, getBit]

theorem py_set_bit (s p : Nat) : set_bit (s : Int) (p : Int) = (setBit s p : Nat) := by
  simp only [set_bit, pyOr, pyShl, shl_one_cast, lor_cast, setBit]

theorem py_unset_bit (s p : Nat) : unset_bit (s : Int) (p : Int) = (unsetBit s p : Nat) := by
  simp only [unset_bit, pyAnd, pyNot, pyShl, shl_one_cast, land_lnot_cast, unsetBit, ldiff_eq_andNot]

theorem py_count_bits_above (s p : Nat) : count_bits_above (s : Int) (p : Int) = (countBitsAbove s p : Nat) := by
  have e : ((p : Int) + 1) = ((p + 1 : Nat) : Int) := by push_cast; rfl
  simp only [count_bits_above, pyAnd, pyNot, pyShl, e, shl_one_sub_cast, land_lnot_cast, ldiff_eq_andNot,
    py_count_bits, countBitsAbove]

theorem py_count_bits_below (s p : Nat) : count_bits_below (s : Int) (p : Int) = (countBitsBelow s p : Nat) := by
  simp only [count_bits_below, pyAnd, pyShl, shl_one_sub_cast, land_cast, py_count_bits, countBitsBelow]

theorem py_count_bits_between (s p1 p2 : Nat) :
    count_bits_between (s : Int) (p1 : Int) (p2 : Int) = (countBitsBetween s p1 p2 : Nat) := by
  have e1 : ((p1 : Int) + 1) = ((p1 + 1 : Nat) : Int) := by push_cast; rfl
  have e2 : ((p2 : Int) + 1) = ((p2 + 1 : Nat) : Int) := by push_cast; rfl
  simp only [count_bits_between, pyAnd, pyXor, pyShl, e1, e2, shl_one_sub_cast, land_cast, xor_cast, py_count_bits,
    countBitsBetween]

theorem py_reverse_integer_index (occ : List Nat) :
    reverse_integer_index (occ.map (fun (k : Nat) => (k : Int))) = (reverseIntegerIndex occ : Nat) := by
  unfold reverse_integer_index reverseIntegerIndex
  simp only []
  have : ∀ (acc : Nat), List.foldl (fun out i => set_bit out i) (acc : Int) (occ.map (fun (k : Nat) => (k : Int))) =
      ((List.foldl setBit acc occ : Nat) : Int) := by
    induction occ with
    | nil => intro acc; rfl
    | cons x xs ih =>
      intro acc
      simp only [List.map_cons, List.foldl_cons, py_set_bit]
      exact ih _
  exact this 0

theorem py_init_bitstring_groundstate (n : Nat) : init_bitstring_groundstate (n : Int) = ((2 ^ n - 1 : Nat) : Int) := by
  simp only [init_bitstring_groundstate, pyShl, shl_one_sub_cast, Nat.one_shiftLeft]

end GenPy

namespace GenPy
open PyPrelude Model

theorem fmod_two (x : Int) : Int.fmod x 2 = x % 2 := Int.fmod_eq_emod_of_nonneg x (by omega)
theorem fdiv_two (x : Int) : Int.fdiv x 2 = x / 2 := Int.fdiv_eq_ediv_of_nonneg x (by omega)

/-- `alpha_beta_electrons` followed by `validate_config` (what `FqeData.__init__` does with a sector's
    parameters) is the sector arithmetic of Model/Sectors.lean, refusals included -/
theorem py_alpha_beta (nele ms norb : Int) :
    (alpha_beta_electrons nele ms).bind (fun ab => (validate_config ab.1 ab.2 norb).map (fun _ => (ab.1.toNat, ab.2.toNat)))
      = alphaBeta nele ms norb := by
  unfold alpha_beta_electrons validate_config alphaBeta
  simp only [pyAbs, pyMod, pyFloorDiv, fmod_two, fdiv_two, decide_eq_true_eq]
  by_cases h1 : nele < 0
  · simp [h1]
  · by_cases h2 : nele < (ms.natAbs : Int)
    · simp [h1, h2]
    · by_cases h3 : (nele + ms) % 2 ≠ 0
      · simp [h1, h2, h3]
      · simp only [h1, h2, h3, if_false]
        simp only [decide_false, Bool.false_eq_true, if_false, Option.bind_some, Bool.or_eq_true, decide_eq_true_eq]
        generalize (nele + ms) / 2 = na
        generalize nele - na = nb
        by_cases a1 : na < 0
        · simp [a1]
        · by_cases a2 : nb < 0
          · simp [a1, a2]
          · by_cases a3 : norb < 0
            · simp [a1, a2, a3]
            · by_cases a4 : norb < na
              · simp [a1, a2, a3, a4]
              · by_cases a5 : norb < nb
                · simp [a1, a2, a3, a4, a5]
                · simp [a1, a2, a3, a4, a5]

end GenPy

namespace GenPy
open PyPrelude Model

theorem pyMin_eq (a b : Int) : pyMin a b = min a b := by
  unfold pyMin; rw [Int.min_def]

theorem paramN_eq (nele norb : Int) :
    ([] ++ (pyRange (nele - pyMin norb nele) (pyMin norb nele + 1)).map
        (fun nbeta => (nele, nele - nbeta * 2, norb)) : List (Int × Int × Int)) =
      (fixedNSectors nele norb).map (fun x => (x.1, x.2, norb)) := by
  unfold fixedNSectors pyRange
  simp only [pyMin_eq, List.nil_append, List.map_map]
  by_cases h : min norb nele < nele - min norb nele
  · have : (min norb nele + 1 - (nele - min norb nele)).toNat = 0 := by omega
    simp [h, this]
  · have e : (min norb nele + 1 - (nele - min norb nele)) = (min norb nele - (nele - min norb nele) + 1) := by omega
    simp only [h, if_false, e, List.map_map]
    rfl

/-- the sector list of `get_number_conserving_wavefunction` is `fixedNSectors` (each with `norb` attached), the
    wavefunction is built with `broken=['spin']`, and an impossible request (no sector) is refused -/
theorem py_fixedN (nele norb : Int) :
    get_number_conserving_wavefunction nele norb =
      if (fixedNSectors nele norb).isEmpty then none
      else some ((fixedNSectors nele norb).map (fun x => (x.1, x.2, norb)), ["spin"]) := by
  unfold get_number_conserving_wavefunction
  simp only []
  rw [paramN_eq]
  by_cases h : (fixedNSectors nele norb).isEmpty = true
  · simp [h]
  · simp [h]

theorem paramSz_eq (sz norb : Int) :
    ([] ++ (pyRange (if sz ≥ 0 then sz else 0) (if sz ≥ 0 then norb + 1 else norb + sz + 1)).map
        (fun nalpha => (2 * nalpha - sz, sz, norb)) : List (Int × Int × Int)) =
      (fixedSzSectors sz norb).map (fun x => (x.1, x.2, norb)) := by
  unfold fixedSzSectors pyRange
  by_cases h : sz ≥ 0
  · simp only [h, if_true, List.nil_append, List.map_map]
    by_cases g : norb + 1 ≤ sz
    · have : (norb + 1 - sz).toNat = 0 := by omega
      simp [g, this]
    · simp only [g, if_false, List.map_map]
      rfl
  · simp only [h, if_false, List.nil_append, List.map_map]
    by_cases g : norb + sz + 1 ≤ 0
    · have : (norb + sz + 1 - 0).toNat = 0 := by omega
      simp [g, this]
    · simp only [g, if_false, List.map_map]
      rfl

/-- the sector list of `get_spin_conserving_wavefunction` is `fixedSzSectors`; the conditionally assigned locals are
    always bound (the two tests are exhaustive); an impossible request (no sector) is refused -/
theorem py_fixedSz (sz norb : Int) :
    get_spin_conserving_wavefunction sz norb =
      if (fixedSzSectors sz norb).isEmpty then none
      else some ((fixedSzSectors sz norb).map (fun x => (x.1, x.2, norb)), ["number"]) := by
  unfold get_spin_conserving_wavefunction
  have key := paramSz_eq sz norb
  by_cases h : sz ≥ 0
  · have h' : ¬ sz < 0 := by omega
    simp only [h, if_true] at key
    simp only [h, h', decide_true, decide_false, if_true, Bool.true_or, Bool.not_true, Bool.false_eq_true, if_false]
    rw [key]
    by_cases e : (fixedSzSectors sz norb).isEmpty = true
    · simp [e]
    · simp [e]
  · have h' : sz < 0 := by omega
    simp only [h, if_false] at key
    simp only [h, h', decide_true, decide_false, if_true, Bool.false_or, Bool.not_true, Bool.false_eq_true, if_false]
    rw [key]
    by_cases e : (fixedSzSectors sz norb).isEmpty = true
    · simp [e]
    · simp [e]

end GenPy

namespace GenPy
open PyPrelude Model

theorem mem_pyRange (a b x : Int) : x ∈ pyRange a b ↔ a ≤ x ∧ x < b := by
  unfold pyRange
  simp only [List.mem_map, List.mem_range]
  constructor
  · rintro ⟨k, hk, rfl⟩; omega
  · intro h
    exact ⟨(x - a).toNat, by omega, by omega⟩

/-- `map_broken_symmetry`: every entry sends a spin-conserving key `(nα, norb − nβ)` (with `nα − (norb − nβ) = s_z`) to
    the number-conserving sector `(nα, nβ)` of `N = norb + s_z` electrons — the beta particle–hole map — and the
    entries are exactly those with `0 ≤ nβ ≤ norb`, `0 ≤ nα ≤ norb` -/
theorem py_map_broken_symmetry (sz norb : Int) (e : (Int × Int) × (Int × Int)) :
    e ∈ map_broken_symmetry sz norb ↔
      (e.2.1 = e.1.1 ∧ e.2.2 = norb - e.1.2 ∧ e.1.1 - e.1.2 = sz ∧ e.2.1 + e.2.2 = norb + sz ∧
        norb + sz - min norb (norb + sz) ≤ e.2.2 ∧ e.2.2 ≤ min norb (norb + sz)) := by
  unfold map_broken_symmetry
  simp only [pyMin_eq, List.nil_append, List.mem_map, mem_pyRange]
  generalize hm : min norb (norb + sz) = m
  have hm1 : m ≤ norb := by rw [← hm]; exact Int.min_le_left _ _
  have hm2 : m ≤ norb + sz := by rw [← hm]; exact Int.min_le_right _ _
  have hm3 : m = norb ∨ m = norb + sz := by
    rw [← hm]; rcases Int.le_total norb (norb + sz) with h | h
    · left; exact Int.min_eq_left h
    · right; exact Int.min_eq_right h
  constructor
  · rintro ⟨nb, hnb, rfl⟩
    dsimp only
    refine ⟨rfl, ?_, ?_, ?_, ?_, ?_⟩ <;> omega
  · rintro ⟨h1, h2, h3, h4, h5, h6⟩
    refine ⟨e.2.2, by omega, ?_⟩
    obtain ⟨⟨a, b⟩, ⟨c, d⟩⟩ := e
    simp only at h1 h2 h3 h4 h5 h6 ⊢
    have : c = a := h1
    subst this
    have : b = norb - d := by omega
    subst this
    have : norb + sz - d = c := by omega
    simp [this]

end GenPy

namespace GenPy
open PyPrelude Model

/-- one iteration of the Python `_build_mapping` loop, as translated from /repo, is `mappingEntry` (sign `-1` ↔
    parity bit) for every string and orbital pair -/
theorem py_build_mapping_entry (s i j : Nat) :
    build_mapping_entry (s : Int) (i : Int) (j : Int) =
      (mappingEntry i j s).map (fun x => ((x.1 : Int), (x.2.1 : Int), if x.2.2 then (-1 : Int) else 1)) := by
  unfold build_mapping_entry mappingEntry
  simp only [py_get_bit, py_set_bit, py_unset_bit, py_count_bits_between, pyMod, fmod_two]
  by_cases h1 : getBit s j ≠ 0
  · by_cases h2 : getBit s i = 0
    · have e1 : ((getBit s j : Nat) : Int) ≠ 0 := by exact_mod_cast h1
      have e2 : ¬ ((getBit s i : Nat) : Int) ≠ 0 := by rw [h2]; simp
      simp only [e1, e2, h1, h2, decide_true, decide_false, Bool.not_false, Bool.and_self, if_true, ne_eq,
        not_false_eq_true, and_self, Option.map_some]
      by_cases hp : countBitsBetween s i j % 2 = 1
      · have : ((countBitsBetween s i j : Nat) : Int) % 2 ≠ 0 := by omega
        simp [hp, this]
      · have : ((countBitsBetween s i j : Nat) : Int) % 2 = 0 := by omega
        simp [hp, this]
    · have e1 : ((getBit s j : Nat) : Int) ≠ 0 := by exact_mod_cast h1
      have e2 : ((getBit s i : Nat) : Int) ≠ 0 := by exact_mod_cast h2
      by_cases hij : i = j
      · have : (i : Int) = (j : Int) := by exact_mod_cast hij
        simp [e1, e2, h1, h2, hij]
      · have : ¬ (i : Int) = (j : Int) := by exact_mod_cast hij
        simp [e1, e2, h1, h2, hij, this]
  · have h1' : getBit s j = 0 := by simpa using h1
    have e1 : ¬ ((getBit s j : Nat) : Int) ≠ 0 := by rw [h1']; simp
    by_cases hij : i = j
    · subst hij
      simp [h1']
    · have : ¬ (i : Int) = (j : Int) := by exact_mod_cast hij
      simp [h1', hij, this]

end GenPy

namespace GenPy
open PyPrelude Model

def castL (l : List Nat) : List Int := l.map (fun (k : Nat) => (k : Int))
def castP (x : Nat × Nat) : Int × Int := ((x.1 : Int), (x.2 : Int))
theorem castL_cons (x : Nat) (xs : List Nat) : castL (x :: xs) = (x : Int) :: castL xs := rfl
theorem castL_nil : castL [] = [] := rfl

theorem contains_cast (l : List Nat) (i : Nat) : (castL l).contains (i : Int) = l.contains i := by
  unfold castL
  induction l with
  | nil => rfl
  | cons x xs ih =>
    simp only [List.map_cons, List.contains_cons]
    rw [ih]
    congr 1
    by_cases h : i = x
    · subst h; simp
    · have : ¬ (i : Int) = (x : Int) := by exact_mod_cast h
      simp [h, this]

theorem py_dag_mask (dag undag : List Nat) :
    (castL dag).foldl (fun dag_mask i => if (!((castL undag).contains i)) then set_bit dag_mask i else dag_mask) (0 : Int) =
      ((dagMaskPy dag undag : Nat) : Int) := by
  unfold dagMaskPy
  have : ∀ (l : List Nat) (m : Nat),
      (castL l).foldl (fun dag_mask i => if (!((castL undag).contains i)) then set_bit dag_mask i else dag_mask) (m : Int) =
        ((l.foldl (fun m i => if undag.contains i then m else setBit m i) m : Nat) : Int) := by
    intro l
    induction l with
    | nil => intro m; rfl
    | cons x xs ih =>
      intro m
      rw [castL_cons, List.foldl_cons, List.foldl_cons]
      by_cases h : undag.contains x = true
      · have hc : (castL undag).contains (x : Int) = true := by rw [contains_cast]; exact h
        simp only [hc, h, Bool.not_true, Bool.false_eq_true, if_false, if_true]
        exact ih m
      · have h' : undag.contains x = false := by simpa using h
        have hc : (castL undag).contains (x : Int) = false := by rw [contains_cast]; exact h'
        simp only [hc, h', Bool.not_false, if_true, Bool.false_eq_true, if_false, py_set_bit]
        exact ih _
  exact this dag 0

theorem py_undag_mask (undag : List Nat) :
    (castL undag).foldl (fun undag_mask i => set_bit undag_mask i) (0 : Int) = ((undagMask undag : Nat) : Int) := by
  unfold undagMask
  have : ∀ (l : List Nat) (m : Nat), (castL l).foldl (fun undag_mask i => set_bit undag_mask i) (m : Int) =
      ((l.foldl setBit m : Nat) : Int) := by
    intro l
    induction l with
    | nil => intro m; rfl
    | cons x xs ih =>
      intro m
      rw [castL_cons, List.foldl_cons, List.foldl_cons, py_set_bit]
      exact ih _
  exact this undag 0

theorem castL_reverse (l : List Nat) : (castL l).reverse = castL l.reverse := by
  unfold castL; rw [List.map_reverse]

theorem py_fold_unset : ∀ (l : List Nat) (c p : Nat),
    (castL l).foldl (fun (st : Int × Int) i => (unset_bit st.1 i, st.2 + count_bits_above st.1 i)) ((c : Int), (p : Int)) =
      castP (l.foldl (fun (cp : Nat × Nat) i => (unsetBit cp.1 i, cp.2 + countBitsAbove cp.1 i)) (c, p)) := by
  intro l
  induction l with
  | nil => intro c p; rfl
  | cons x xs ih =>
    intro c p
    rw [castL_cons, List.foldl_cons, List.foldl_cons]
    simp only [py_unset_bit, py_count_bits_above]
    have : ((p : Int) + ((countBitsAbove c x : Nat) : Int)) = ((p + countBitsAbove c x : Nat) : Int) := by push_cast; rfl
    rw [this]
    exact ih _ _

theorem py_fold_set : ∀ (l : List Nat) (c p : Nat),
    (castL l).foldl (fun (st : Int × Int) i => (set_bit st.1 i, st.2 + count_bits_above st.1 i)) ((c : Int), (p : Int)) =
      castP (l.foldl (fun (cp : Nat × Nat) i => (setBit cp.1 i, cp.2 + countBitsAbove cp.1 i)) (c, p)) := by
  intro l
  induction l with
  | nil => intro c p; rfl
  | cons x xs ih =>
    intro c p
    rw [castL_cons, List.foldl_cons, List.foldl_cons]
    simp only [py_set_bit, py_count_bits_above]
    have : ((p : Int) + ((countBitsAbove c x : Nat) : Int)) = ((p + countBitsAbove c x : Nat) : Int) := by push_cast; rfl
    rw [this]
    exact ih _ _

/-- the reference-path operator-string map kernel, as translated from fci_graph.py on every run (Python ints), admits
    a string and computes its target and parity exactly as the Model does (`makeMappingEachPy`) -/
theorem py_mme_entry (s : Nat) (dag undag : List Nat) :
    mme_entry (s : Int) (castL dag) (castL undag) =
      (if (s &&& dagMaskPy dag undag) = 0 ∧ ((s &&& undagMask undag) ^^^ undagMask undag) = 0 then
        some ((((mapEachStep dag undag s).1 : Nat) : Int), (((mapEachStep dag undag s).2 % 2 : Nat) : Int)) else none) := by
  unfold mme_entry mme_masks
  simp only []
  rw [py_dag_mask, py_undag_mask]
  simp only [pyAnd, pyXor, land_cast, xor_cast]
  have z1 : (((s &&& dagMaskPy dag undag : Nat) : Int) = 0) ↔ (s &&& dagMaskPy dag undag) = 0 := by exact_mod_cast Iff.rfl
  have z2 : ((((s &&& undagMask undag) ^^^ undagMask undag : Nat) : Int) = 0) ↔ ((s &&& undagMask undag) ^^^ undagMask undag) = 0 := by
    exact_mod_cast Iff.rfl
  by_cases h1 : (s &&& dagMaskPy dag undag) = 0
  · by_cases h2 : ((s &&& undagMask undag) ^^^ undagMask undag) = 0
    · have d1 : decide (((s &&& dagMaskPy dag undag : Nat) : Int) = 0) = true := by simp [z1.2 h1]
      have d2 : decide ((((s &&& undagMask undag) ^^^ undagMask undag : Nat) : Int) = 0) = true := by simp [z2.2 h2]
      simp only [d1, d2, Bool.and_self, if_true, h1, h2, and_self]
      rw [castL_reverse, castL_reverse]
      have e1 := py_fold_unset undag.reverse s 0
      simp only [Nat.cast_zero] at e1
      rw [e1]
      unfold castP
      rw [py_fold_set]
      unfold mapEachStep castP
      simp only [pyMod, fmod_two]
      congr 2
    · have d2 : decide ((((s &&& undagMask undag) ^^^ undagMask undag : Nat) : Int) = 0) = false := by
        simp only [decide_eq_false_iff_not]; exact fun e => h2 (z2.1 e)
      simp [d2, h2]
  · have d1 : decide (((s &&& dagMaskPy dag undag : Nat) : Int) = 0) = false := by
      simp only [decide_eq_false_iff_not]; exact fun e => h1 (z1.1 e)
    simp [d1, h1]


end GenPy

namespace GenPy
open PyPrelude Model

theorem castL_length (l : List Nat) : (castL l).length = l.length := by unfold castL; simp

theorem castL_getD (l : List Nat) (d : Nat) : (castL l).getD d 0 = ((l.getD d 0 : Nat) : Int) := by
  unfold castL
  induction l generalizing d with
  | nil => simp
  | cons x xs ih =>
    cases d with
    | zero => simp
    | succ d => simpa using ih d

theorem py_mmes_fold (source : Nat) (ops : List Nat) : ∀ (ds : List Nat) (t p : Nat),
    ds.foldl (fun (st : Int × Int) iop =>
        (unset_bit st.1 ((ops.getD iop 0 : Nat) : Int),
         st.2 + ((iop : Int) + 1) * ((countBitsBetween source (ops.getD iop 0) (ops.getD (iop + 1) 0) : Nat) : Int)))
        ((t : Int), (p : Int)) =
      castP (ds.foldl (fun (tp : Nat × Nat) iop =>
        (unsetBit tp.1 (ops.getD iop 0),
         tp.2 + (iop + 1) * countBitsBetween source (ops.getD iop 0) (ops.getD (iop + 1) 0))) (t, p)) := by
  intro ds
  induction ds with
  | nil => intro t p; rfl
  | cons d rest ih =>
    intro t p
    rw [List.foldl_cons, List.foldl_cons]
    have e1 : unset_bit (t : Int) ((ops.getD d 0 : Nat) : Int) = ((unsetBit t (ops.getD d 0) : Nat) : Int) := py_unset_bit _ _
    have e2 : ((p : Int) + ((d : Int) + 1) * ((countBitsBetween source (ops.getD d 0) (ops.getD (d + 1) 0) : Nat) : Int)) =
        ((p + (d + 1) * countBitsBetween source (ops.getD d 0) (ops.getD (d + 1) 0) : Nat) : Int) := by push_cast; rfl
    simp only [e1, e2]
    exact ih _ _

/-- the reference-path k-fold annihilation map kernel, as translated from fci_graph_set.py on every run, is the
    Model's `mapSetEntry` -/
theorem py_mmes_entry (source mask : Nat) (ops : List Nat) :
    mmes_entry (source : Int) (mask : Int) (castL ops) =
      (if ((source &&& mask) ^^^ mask) = 0 then
        some ((((mapSetEntry ops source).2.1 : Nat) : Int), (((mapSetEntry ops source).2.2 : Nat) : Int)) else none) := by
  unfold mmes_entry
  simp only [pyAnd, pyXor, land_cast, xor_cast, castL_length, castL_getD, py_count_bits_above, py_unset_bit,
    py_count_bits_between]
  have z : ((((source &&& mask) ^^^ mask : Nat) : Int) ≠ 0) ↔ ((source &&& mask) ^^^ mask) ≠ 0 := by exact_mod_cast Iff.rfl
  by_cases h : ((source &&& mask) ^^^ mask) = 0
  · have d1 : decide ((((source &&& mask) ^^^ mask : Nat) : Int) ≠ 0) = false := by
      simp only [decide_eq_false_iff_not]; exact fun e => (z.1 e) h
    simp only [h, Nat.cast_zero, ne_eq, not_true_eq_false, decide_false, Bool.false_eq_true, if_false, if_true]
    have hp : (((countBitsAbove source (ops.getD (ops.length - 1) 0) : Nat) : Int) * (ops.length : Int)) =
        ((countBitsAbove source (ops.getD (ops.length - 1) 0) * ops.length : Nat) : Int) := by push_cast; rfl
    rw [hp, py_mmes_fold]
    unfold mapSetEntry castP
    rfl
  · have d1 : decide ((((source &&& mask) ^^^ mask : Nat) : Int) ≠ 0) = true := by
      simp only [decide_eq_true_eq]; exact z.2 h
    simp [d1, h]


/-! ### `_get_Z_matrix`, reference branch -/

theorem pyRange_cast (a b : Nat) : pyRange (a : Int) (b : Int) = (List.range' a (b - a)).map (fun (m : Nat) => (m : Int)) := by
  unfold pyRange
  have h : ((b : Int) - (a : Int)).toNat = b - a := by omega
  rw [h, List.range'_eq_map_range, List.map_map]
  apply List.map_congr_left
  intro x _
  simp

theorem pySum_cast (l : List Nat) (f : Int → Int) :
    pySum (l.map (fun (m : Nat) => (m : Int))) f = l.foldl (fun (acc : Int) (m : Nat) => acc + f (m : Int)) 0 := by
  unfold pySum
  rw [List.foldl_map]

/-- the value the first loop nest assigns at (k, ll) = (r+1, c+1) is the Model's entry -/
theorem py_z1_value (norb nele r c : Nat) (hr : r + 1 < nele) (hrc : r ≤ c) (hc : c ≤ norb - nele + r) (hn : nele ≤ norb) :
    z1_value (norb : Int) (nele : Int) ((r : Int) + 1) ((c : Int) + 1) = zEntry norb nele r c := by
  unfold z1_value zEntry
  have hcond : r + 1 ≤ c + 1 ∧ c + 1 ≤ norb - nele + (r + 1) := by omega
  simp only [hr, if_true, hcond, and_self]
  have e1 : ((norb : Int) - ((c : Int) + 1)) + (1 : Int) = ((norb - (c + 1) + 1 : Nat) : Int) := by omega
  have e2 : ((norb : Int) - ((r : Int) + 1)) + (1 : Int) = ((norb - (r + 1) + 1 : Nat) : Int) := by omega
  rw [e1, e2, pyRange_cast, pySum_cast, filter_range_ge (norb - (c + 1) + 1) (norb - (r + 1)) (by omega)]
  have := sumRange'_congr
    (fun m => pyBinom (m : Int) ((nele : Int) - ((r : Int) + 1)) - pyBinom ((m : Int) - (1 : Int)) (((nele : Int) - ((r : Int) + 1)) - (1 : Int)))
    (fun m => ((binom m (nele - (r + 1)) : Int) - (binom (m - 1) (nele - (r + 1) - 1) : Int)))
    (norb - (c + 1) + 1) (norb - (r + 1) + 1 - (norb - (c + 1) + 1)) (by
      intro x hx _
      unfold pyBinom
      have a1 : ((nele : Int) - ((r : Int) + 1)).toNat = nele - (r + 1) := by omega
      have a2 : (((nele : Int) - ((r : Int) + 1)) - (1 : Int)).toNat = nele - (r + 1) - 1 := by omega
      have a3 : ((x : Int) - (1 : Int)).toNat = x - 1 := by omega
      rw [a1, a2, a3, Int.toNat_natCast])
  unfold sumRange' at this
  exact this

theorem py_z2_value (norb nele c : Nat) (h1 : nele ≤ c + 1) (h2 : c + 1 ≤ norb) (h0 : 0 < nele) :
    z2_value (norb : Int) (nele : Int) (z2_k norb nele) ((c : Int) + 1) = zEntry norb nele (nele - 1) c := by
  unfold z2_value zEntry
  have hk2 : nele - 1 + 1 = nele := by omega
  simp only [hk2, Nat.lt_irrefl, if_false, if_true, h1, h2, and_self]
  push_cast
  rfl

/-- **the reference Z matrix is the Model's**: every assignment of the two translated loop nests of `_get_Z_matrix`
    writes the Model's entry at the index it names, and an index no iteration names has Model entry 0 (the
    `numpy.zeros` initial value) -/
theorem py_z_matrix (norb nele : Nat) (hn : nele ≤ norb) (r c : Nat) :
    (∀ k ∈ z1_rows (norb : Int) (nele : Int), ∀ ll ∈ z1_cols (norb : Int) (nele : Int) k,
        z1_index (norb : Int) (nele : Int) k ll = ((r : Int), (c : Int)) →
        z1_value (norb : Int) (nele : Int) k ll = zEntry norb nele r c) ∧
    (∀ ll ∈ z2_cols (norb : Int) (nele : Int),
        z2_index (norb : Int) (nele : Int) (z2_k norb nele) ll = ((r : Int), (c : Int)) →
        z2_value (norb : Int) (nele : Int) (z2_k norb nele) ll = zEntry norb nele r c) ∧
    ((∀ k ∈ z1_rows (norb : Int) (nele : Int), ∀ ll ∈ z1_cols (norb : Int) (nele : Int) k,
        z1_index (norb : Int) (nele : Int) k ll ≠ ((r : Int), (c : Int))) →
     (∀ ll ∈ z2_cols (norb : Int) (nele : Int),
        z2_index (norb : Int) (nele : Int) (z2_k norb nele) ll ≠ ((r : Int), (c : Int))) →
     zEntry norb nele r c = 0) := by
  refine ⟨?_, ?_, ?_⟩
  · intro k hk ll hll hidx
    unfold z1_rows at hk
    unfold z1_cols at hll
    rw [mem_pyRange] at hk hll
    unfold z1_index at hidx
    have hk' : k = (r : Int) + 1 := by have := congrArg Prod.fst hidx; simp only at this; omega
    have hl' : ll = (c : Int) + 1 := by have := congrArg Prod.snd hidx; simp only at this; omega
    subst hk'; subst hl'
    exact py_z1_value norb nele r c (by omega) (by omega) (by omega) hn
  · intro ll hll hidx
    unfold z2_cols at hll
    rw [mem_pyRange] at hll
    unfold z2_index z2_k at hidx
    have hk' : (nele : Int) - 1 = (r : Int) := by have := congrArg Prod.fst hidx; simpa using this
    have hl' : ll = (c : Int) + 1 := by have := congrArg Prod.snd hidx; simp only at this; omega
    subst hl'
    have hr : r = nele - 1 := by omega
    subst hr
    exact py_z2_value norb nele c (by omega) (by omega) (by omega)
  · intro h1 h2
    unfold zEntry
    by_cases hk : r + 1 < nele
    · simp only [hk, if_true]
      by_cases hcond : r + 1 ≤ c + 1 ∧ c + 1 ≤ norb - nele + (r + 1)
      · exfalso
        refine h1 ((r : Int) + 1) ?_ ((c : Int) + 1) ?_ ?_
        · unfold z1_rows; rw [mem_pyRange]; omega
        · unfold z1_cols; rw [mem_pyRange]; omega
        · unfold z1_index; simp
      · simp only [hcond, if_false]
    · simp only [hk, if_false]
      by_cases hk2 : r + 1 = nele
      · simp only [hk2, if_true]
        by_cases hcond : nele ≤ c + 1 ∧ c + 1 ≤ norb
        · exfalso
          refine h2 ((c : Int) + 1) ?_ ?_
          · unfold z2_cols; rw [mem_pyRange]; omega
          · unfold z2_index z2_k; simp; omega
        · simp only [hcond, if_false]
      · simp only [hk2, if_false]

/-! ### `FciGraph._build_string_address` -/

/-- the Model's address as a sum over positions -/
theorem addressFold_eq (norb nele : Nat) (occ : List Nat) :
    (List.zip (List.range occ.length) occ).foldl (fun acc (p : Nat × Nat) => acc + zEntry norb nele p.1 p.2) 0 =
      sumRange' (fun i => zEntry norb nele i (occ.getD i 0)) 0 occ.length := by
  induction occ using List.reverseRecOn with
  | nil => rfl
  | append_singleton l x ih =>
    have hz : List.zip (List.range (l ++ [x]).length) (l ++ [x]) = List.zip (List.range l.length) l ++ [(l.length, x)] := by
      rw [List.length_append, List.length_singleton, List.range_succ]
      rw [List.zip_append (by simp)]
      rfl
    rw [hz, List.foldl_append, ih]
    simp only [List.foldl_cons, List.foldl_nil, List.length_append, List.length_singleton]
    rw [sumRange'_succ]
    have e1 : sumRange' (fun i => zEntry norb nele i ((l ++ [x]).getD i 0)) 0 l.length =
        sumRange' (fun i => zEntry norb nele i (l.getD i 0)) 0 l.length := by
      apply sumRange'_congr
      intro i _ hi
      have : i < l.length := by omega
      simp only [List.getD_eq_getElem?_getD, List.getElem?_append_left this]
    have e2 : (l ++ [x]).getD (0 + l.length) 0 = x := by
      simp [List.getD_eq_getElem?_getD]
    rw [e1, e2]
    simp

/-- the translated `_build_string_address`, given the Model's matrix, is the Model's `addressOf` for every string whose
    occupation list has `nele` entries (and Python's IndexError for a shorter list) -/
theorem py_string_address (norb nele s : Nat) (h : (integerIndex s).length = nele) :
    string_address (fun i o => zEntry norb nele i.toNat o.toNat) (nele : Int) (norb : Int) (castL (integerIndex s)) =
      some (addressOf norb nele s) := by
  subst h
  unfold string_address addressOf
  have hall : (pyRange (0 : Int) ((integerIndex s).length : Int)).all (fun i => decide (i.toNat < (castL (integerIndex s)).length)) = true := by
    rw [List.all_eq_true]
    intro i hi
    rw [mem_pyRange] at hi
    rw [castL_length]
    simp only [decide_eq_true_eq]
    omega
  rw [if_pos hall]
  congr 1
  have e0 : pyRange (0 : Int) ((integerIndex s).length : Int) =
      (List.range' 0 ((integerIndex s).length - 0)).map (fun (m : Nat) => (m : Int)) := by
    have := pyRange_cast 0 (integerIndex s).length
    simpa using this
  rw [e0, pySum_cast]
  have := addressFold_eq norb (integerIndex s).length (integerIndex s)
  rw [show (List.zip (List.range (integerIndex s).length) (integerIndex s)).foldl
        (fun acc (x : Nat × Nat) => acc + zEntry norb (integerIndex s).length x.1 x.2) 0 =
      sumRange' (fun i => zEntry norb (integerIndex s).length i ((integerIndex s).getD i 0)) 0 (integerIndex s).length from this]
  unfold sumRange'
  simp only [Nat.sub_zero]
  apply congrArg (fun f => List.foldl f (0 : Int) (List.range' 0 (integerIndex s).length))
  funext acc m
  simp only [Int.toNat_natCast, castL_getD]

end GenPy
