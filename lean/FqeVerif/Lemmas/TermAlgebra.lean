/-
  Lemmas/TermAlgebra.lean — algebra of operator strings on determinants: composition, and the two
  rewriting steps of normal ordering / Wick's theorem (swap with a sign; contraction).
-/
import FqeVerif.Lemmas.Car
namespace Fock

/-- negate the sign of a result -/
def negRes (r : Option (Bool × Nat × Nat)) : Option (Bool × Nat × Nat) := r.map (fun x => (!x.1, x.2))

/-- continue with `t1` after a partial result -/
def thenApply (t1 : Term) (r : Option (Bool × Nat × Nat)) : Option (Bool × Nat × Nat) :=
  match r with
  | none => none
  | some (s, a, b) => (applyTerm t1 a b).map (fun x => (s ^^ x.1, x.2))

/-- one more ladder factor on top of a partial result -/
def stepAfter (dg : Bool) (m : Nat) (r : Option (Bool × Nat × Nat)) : Option (Bool × Nat × Nat) :=
  match r with
  | none => none
  | some (s, a', b') =>
    match specLadder dg m a' b' with
    | none => none
    | some (s', a'', b'') => some (s ^^ s', a'', b'')

theorem applyTerm_cons (m : Nat) (dg : Bool) (rest : Term) (a b : Nat) :
    applyTerm ((m, dg) :: rest) a b = stepAfter dg m (applyTerm rest a b) := by
  rw [applyTerm]
  unfold stepAfter
  cases applyTerm rest a b with
  | none => rfl
  | some r =>
    obtain ⟨s, a', b'⟩ := r
    simp only
    cases specLadder dg m a' b' <;> rfl

theorem thenApply_cons (m : Nat) (dg : Bool) (rest : Term) (r : Option (Bool × Nat × Nat)) :
    thenApply ((m, dg) :: rest) r = stepAfter dg m (thenApply rest r) := by
  unfold thenApply
  cases r with
  | none => rfl
  | some x =>
    obtain ⟨s, a, b⟩ := x
    simp only [applyTerm_cons]
    cases h2 : applyTerm rest a b with
    | none => rfl
    | some r2 =>
      obtain ⟨s2, a2, b2⟩ := r2
      simp only [stepAfter, Option.map_some]
      cases h3 : specLadder dg m a2 b2 with
      | none => rfl
      | some r3 =>
        obtain ⟨s3, a3, b3⟩ := r3
        simp only [Option.map_some, Bool.xor_assoc]

theorem thenApply_nil (r : Option (Bool × Nat × Nat)) : thenApply [] r = r := by
  unfold thenApply
  cases r with
  | none => rfl
  | some x => obtain ⟨s, a, b⟩ := x; simp [applyTerm]

theorem applyTerm_append (t1 t2 : Term) (a b : Nat) :
    applyTerm (t1 ++ t2) a b = thenApply t1 (applyTerm t2 a b) := by
  induction t1 with
  | nil => rw [List.nil_append, thenApply_nil]
  | cons f rest ih =>
    obtain ⟨m, dg⟩ := f
    rw [List.cons_append, applyTerm_cons, ih, thenApply_cons]

theorem applyTerm_pair (d1 d2 : Bool) (m1 m2 a b : Nat) :
    applyTerm [(m1, d1), (m2, d2)] a b = specLadder2 d1 m1 d2 m2 a b := by
  rw [applyTerm_cons, applyTerm_cons]
  unfold specLadder2 stepAfter
  simp only [applyTerm]
  cases h : specLadder d2 m2 a b with
  | none => rfl
  | some r =>
    obtain ⟨s, a', b'⟩ := r
    simp only [Bool.false_xor]
    cases specLadder d1 m1 a' b' <;> rfl

theorem thenApply_negRes (t : Term) (r : Option (Bool × Nat × Nat)) :
    thenApply t (negRes r) = negRes (thenApply t r) := by
  unfold thenApply negRes
  cases r with
  | none => rfl
  | some x =>
    obtain ⟨s, a, b⟩ := x
    simp only [Option.map_some]
    cases applyTerm t a b with
    | none => rfl
    | some y => cases s <;> simp

/-- **swap step**: exchanging two adjacent ladder operators on different modes, anywhere inside an
    operator string, changes the sign and nothing else -/
theorem term_swap (pre post : Term) (d1 d2 : Bool) (m1 m2 a b : Nat) (h : m1 ≠ m2) :
    applyTerm (pre ++ [(m1, d1), (m2, d2)] ++ post) a b =
      negRes (applyTerm (pre ++ [(m2, d2), (m1, d1)] ++ post) a b) := by
  rw [List.append_assoc, List.append_assoc, applyTerm_append, applyTerm_append pre, applyTerm_append,
    applyTerm_append [(m2, d2), (m1, d1)], ← thenApply_negRes]
  congr 1
  cases hp : applyTerm post a b with
  | none => rfl
  | some r =>
    obtain ⟨s, a', b'⟩ := r
    unfold thenApply
    simp only
    rw [applyTerm_pair, applyTerm_pair, ← spec_car_offdiag d2 d1 m2 m1 a' b' (Ne.symm h)]
    unfold negRes
    cases specLadder2 d2 m2 d1 m1 a' b' with
    | none => rfl
    | some y => cases s <;> simp

/-- **contraction step**: for the same mode, exactly one of `… a_m a_m† …` and `… a_m† a_m …` acts, and
    it acts like the string with the pair removed (`a_m a_m† = 1 − a_m† a_m`) -/
theorem term_contract (pre post : Term) (m a b : Nat) :
    (applyTerm (pre ++ [(m, false), (m, true)] ++ post) a b = applyTerm (pre ++ post) a b ∧
      applyTerm (pre ++ [(m, true), (m, false)] ++ post) a b = none) ∨
    (applyTerm (pre ++ [(m, false), (m, true)] ++ post) a b = none ∧
      applyTerm (pre ++ [(m, true), (m, false)] ++ post) a b = applyTerm (pre ++ post) a b) := by
  simp only [List.append_assoc, applyTerm_append]
  cases hp : applyTerm post a b with
  | none => left; exact ⟨rfl, rfl⟩
  | some r =>
    obtain ⟨s, a', b'⟩ := r
    have key : ∀ x, thenApply [(m, x), (m, !x)] (some (s, a', b')) =
        (specLadder2 x m (!x) m a' b').map (fun y => (s ^^ y.1, y.2)) := by
      intro x; unfold thenApply; simp only; rw [applyTerm_pair]
    have k1 := key false
    have k2 := key true
    simp only [Bool.not_false, Bool.not_true] at k1 k2
    rw [k1, k2]
    rcases spec_car_diag m a' b' with ⟨h1, h2⟩ | ⟨h1, h2⟩
    · left
      rw [h1, h2]
      simp [thenApply]
    · right
      rw [h1, h2]
      simp [thenApply]

/-- matrix element `⟨f| r⟩` of a signed single-determinant result against an arbitrary integer-valued bra -/
def evalRes (f : Nat → Nat → Int) (r : Option (Bool × Nat × Nat)) : Int :=
  match r with
  | none => 0
  | some (s, a, b) => if s then - f a b else f a b

theorem evalRes_negRes (f : Nat → Nat → Int) (r : Option (Bool × Nat × Nat)) :
    evalRes f (negRes r) = - evalRes f r := by
  unfold evalRes negRes
  cases r with
  | none => rfl
  | some x =>
    obtain ⟨s, a, b⟩ := x
    cases s <;> simp

end Fock
