/-
  Lemmas/Embed.lean — the embedding lemma: ι intertwines FQE's ladder step with Spec's.
-/
import FqeVerif.Spec.Embed
namespace Fock

/-- L1: effect of flipping orbital `q` on the triangular parity, for any upper limit `k` -/
theorem tri_flip (s q : Nat) : ∀ k, tri (flip s q) k =
    (tri s k ^^ (decide (q < k) && (par s q ^^ (par s k ^^ par s (q + 1))))) := by
  intro k
  induction k with
  | zero => simp [tri]
  | succ k ih =>
    simp only [tri, ih, testBit_flip, par_flip]
    by_cases h1 : q < k
    · have h2 : q < k + 1 := by omega
      have h3 : q ≠ k := by omega
      simp only [h1, h2, h3, decide_true, decide_false, Bool.true_and, Bool.xor_false]
      rw [par_succ s k]
      generalize tri s k = t; generalize par s q = x; generalize par s k = y
      generalize par s (q+1) = z; generalize s.testBit k = w
      cases t <;> cases x <;> cases y <;> cases z <;> cases w <;> rfl
    · by_cases h3 : q = k
      · subst h3
        simp only [Nat.lt_irrefl, Nat.lt_succ_self, decide_true, decide_false, Bool.false_and,
          Bool.true_and, Bool.xor_false, Bool.xor_true]
        generalize tri s q = t; generalize par s (q+1) = z; generalize par s q = x
        generalize s.testBit q = w
        cases t <;> cases x <;> cases z <;> cases w <;> rfl
      · have h2 : ¬ q < k + 1 := by omega
        simp [h1, h2, h3]

theorem parAbove_flip (norb s q j : Nat) (hq : q < norb) :
    parAbove norb (flip s q) j = (parAbove norb s j ^^ decide (j < q)) := by
  unfold parAbove
  rw [par_flip, par_flip]
  by_cases h : j < q
  · have h2 : ¬ q < j + 1 := by omega
    simp [hq, h, h2]
  · have h2 : q < j + 1 := by omega
    simp [hq, h, h2]

/-- L2a: flipping alpha orbital `q` toggles the cross parity by the number of beta electrons below `q` -/
theorem cross_flip_a (norb a b q : Nat) (hq : q < norb) : ∀ k,
    cross norb (flip a q) b k = (cross norb a b k ^^ (if k ≤ q then par b k else par b q)) := by
  intro k
  induction k with
  | zero => simp [cross, par]
  | succ k ih =>
    simp only [cross, ih, parAbove_flip norb a q k hq]
    by_cases h1 : k + 1 ≤ q
    · have h2 : k ≤ q := by omega
      have h3 : k < q := by omega
      simp only [h1, h2, h3, if_true, decide_true, par_succ]
      generalize cross norb a b k = c; generalize par b k = x; generalize b.testBit k = w
      generalize parAbove norb a k = y
      cases c <;> cases x <;> cases w <;> cases y <;> rfl
    · by_cases h2 : k ≤ q
      · have h3 : k = q := by omega
        subst h3
        simp only [h1, if_false, Nat.le_refl, if_true, Nat.lt_irrefl, decide_false, Bool.xor_false]
        generalize cross norb a b k = c; generalize par b k = x; generalize b.testBit k = w
        generalize parAbove norb a k = y
        cases c <;> cases x <;> cases w <;> cases y <;> rfl
      · have h3 : ¬ k < q := by omega
        simp only [h1, h2, h3, if_false, decide_false, Bool.xor_false]
        generalize cross norb a b k = c; generalize par b q = x; generalize b.testBit k = w
        generalize parAbove norb a k = y
        cases c <;> cases x <;> cases w <;> cases y <;> rfl

/-- L2b: flipping beta orbital `q` toggles the cross parity by the alpha electrons above `q` -/
theorem cross_flip_b (norb a b q : Nat) : ∀ k,
    cross norb a (flip b q) k = (cross norb a b k ^^ (decide (q < k) && parAbove norb a q)) := by
  intro k
  induction k with
  | zero => simp [cross]
  | succ k ih =>
    simp only [cross, ih, testBit_flip]
    by_cases h1 : q < k
    · have h2 : q < k + 1 := by omega
      have h3 : q ≠ k := by omega
      simp only [h1, h2, h3, decide_true, decide_false, Bool.true_and, Bool.xor_false]
      generalize cross norb a b k = c; generalize b.testBit k = w
      generalize parAbove norb a k = y; generalize parAbove norb a q = z
      cases c <;> cases w <;> cases y <;> cases z <;> rfl
    · by_cases h3 : q = k
      · subst h3
        simp only [Nat.lt_irrefl, Nat.lt_succ_self, decide_true, decide_false, Bool.false_and,
          Bool.true_and, Bool.xor_false, Bool.xor_true]
        generalize cross norb a b q = c; generalize b.testBit q = w
        generalize parAbove norb a q = y
        cases c <;> cases w <;> cases y <;> rfl
      · have h2 : ¬ q < k + 1 := by omega
        simp [h1, h2, h3]

/-- The embedding lemma, alpha step: target sign = source sign ⊕ FQE kernel sign ⊕ JW sign. -/
theorem embed_alpha (norb a b q : Nat) (hq : q < norb) :
    embedSign norb (flip a q) b =
      (embedSign norb a b ^^ parAbove norb a q ^^ parModes a b (2 * q)) := by
  unfold embedSign parModes
  rw [cross_flip_a norb a b q hq norb, tri_flip a q norb]
  have h1 : ¬ norb ≤ q := by omega
  have h2 : (2 * q + 1) / 2 = q := by omega
  have h3 : 2 * q / 2 = q := by omega
  simp only [h1, if_false, hq, decide_true, Bool.true_and, h2, h3]
  unfold parAbove
  generalize cross norb a b norb = c; generalize par b q = x; generalize tri a norb = t
  generalize par a q = y; generalize par a norb = n; generalize par a (q+1) = z
  generalize tri b norb = u
  cases c <;> cases x <;> cases t <;> cases y <;> cases n <;> cases z <;> cases u <;> rfl

/-- The embedding lemma, beta step (the kernel sign includes `(-1)^{nalpha}`). -/
theorem embed_beta (norb a b q : Nat) (hq : q < norb) :
    embedSign norb a (flip b q) =
      (embedSign norb a b ^^ (parN norb a ^^ parAbove norb b q) ^^ parModes a b (2 * q + 1)) := by
  unfold embedSign parModes parN
  rw [cross_flip_b norb a b q norb, tri_flip b q norb]
  have h2 : (2 * q + 1 + 1) / 2 = q + 1 := by omega
  have h3 : (2 * q + 1) / 2 = q := by omega
  simp only [hq, decide_true, Bool.true_and, h2, h3]
  unfold parAbove
  generalize cross norb a b norb = c; generalize par b q = x; generalize tri a norb = t
  generalize par a norb = n; generalize par a (q+1) = z; generalize tri b norb = u
  generalize par b norb = m; generalize par b (q+1) = v
  cases c <;> cases x <;> cases t <;> cases n <;> cases z <;> cases u <;> cases m <;> cases v <;> rfl

end Fock
